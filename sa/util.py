"""Helpers shared by the rule modules: cached path evaluation, call recognition,
light type inference for attributes, inlining of properties / small methods."""
from __future__ import annotations

import ast
from typing import Any, Callable, Dict, Iterable, List, Optional, Set, Tuple

from .model import AnalysisError, ClassInfo, FunctionInfo, Repo
from .sym import (NONE, Evaluator, Event, State, Term, mentions, show, subterms)

SELF = ('param', 'self')

_path_cache: Dict[Tuple[int, str, tuple], List[State]] = {}


def paths(repo: Repo, fn: FunctionInfo, bind: Optional[Dict[str, Term]] = None,
          loop_unroll: int = 1, keep: Optional[Iterable[str]] = None) -> List[State]:
    """Symbolic paths of ``fn``.  With ``keep`` (a collection of function / method NAMES, may be
    empty) the evaluation INLINES the helpers fn calls — module-level repository functions and
    methods of the same object — except those named in ``keep`` (the calls the rule wants to
    see as calls): extracting a block into a helper, or calling a shared helper instead of a
    copy-pasted block, then gives the same events and terms as the block written in place."""
    keep_t = None if keep is None else tuple(sorted(keep))
    key = (id(repo), fn.qualname + ('#s' if fn.kind == 'setter' else ''),
           tuple(sorted((bind or {}).items())) + (loop_unroll, keep_t))
    if key not in _path_cache:
        if keep_t is not None:
            def inline(fi, _k=set(keep_t)):
                return fi.name not in _k and not fi.name.startswith('__')
        else:
            # default: look through helpers that did not exist when the rules were written
            # (sa/baseline_functions.txt lists the functions of the tree the rule instances
            # were confirmed on).  A helper a maintainer extracts, or a shared implementation
            # siblings are moved to, is analysed in place; the list decides only what is looked
            # through, never what is reported.
            def inline(fi):
                return is_new_helper(repo, fi)
        _path_cache[key] = Evaluator(repo, fn, bind, loop_unroll=loop_unroll, inline=inline).run()
    return _path_cache[key]


_BASELINE: Optional[Set[str]] = None


def _baseline() -> Set[str]:
    global _BASELINE
    if _BASELINE is None:
        import os
        f = os.path.join(os.path.dirname(os.path.abspath(__file__)), 'baseline_functions.txt')
        with open(f) as fh:
            _BASELINE = {ln.strip() for ln in fh if ln.strip()}
    return _BASELINE


_OWNERS: Optional[Dict[str, List[str]]] = None


def is_new_helper(repo: Repo, fi: FunctionInfo) -> bool:
    """A function that did not exist on the tree the rule instances were confirmed on (and is
    not a known method moved along its class hierarchy): looked through by default."""
    global _OWNERS
    base = _baseline()
    if _OWNERS is None:
        _OWNERS = {}
        for q in base:
            o, _, nm = q.rpartition('.')
            _OWNERS.setdefault(nm, []).append(o)
    if fi.qualname in base or fi.name.startswith('__'):
        return False
    if fi.cls is not None:
        # a method moved up or down its class hierarchy is the same helper
        for o in _OWNERS.get(fi.name, ()):
            oc = repo.classes.get(o)
            if oc is not None and (repo.is_subclass(oc, fi.cls.qualname) or
                                   repo.is_subclass(fi.cls, oc.qualname)):
                return False
    return True


def helper_closure(repo: Repo, fn: FunctionInfo, depth: int = 3) -> List[FunctionInfo]:
    """``fn`` and the new helpers (see is_new_helper) it statically calls, transitively: the
    body a syntax-directed rule has to look at when a maintainer splits ``fn`` into steps."""
    out, todo = [fn], [(fn, 0)]
    while todo:
        cur, d = todo.pop()
        if d >= depth:
            continue
        for n in ast.walk(cur.node):
            if not isinstance(n, ast.Call):
                continue
            cand = None
            if isinstance(n.func, ast.Name):
                q = repo.resolve_name(cur.module, n.func.id)
                cand = repo.functions.get(repo.canonical(q)) if q else None
            elif isinstance(n.func, ast.Attribute) and isinstance(n.func.value, ast.Name) and \
                    cur.cls is not None and cur.params and n.func.value.id == cur.params[0]:
                cand = repo.find_method(cur.cls, n.func.attr)
            elif isinstance(n.func, ast.Attribute) and isinstance(n.func.value, ast.Name) and \
                    cur.cls is not None and n.func.value.id == cur.cls.name:
                cand = repo.find_method(cur.cls, n.func.attr)
            if cand is not None and cand not in out and is_new_helper(repo, cand):
                out.append(cand)
                todo.append((cand, d + 1))
    return out


def closure_nodes(repo: Repo, fn: FunctionInfo):
    """(function, node) over the syntax trees of helper_closure(fn)."""
    for fi in helper_closure(repo, fn):
        for n in ast.walk(fi.node):
            yield fi, n


def returning(ps: Iterable[State]) -> List[State]:
    return [p for p in ps if p.status == 'return']


# -- call recognition --------------------------------------------------------------------
def callee(t: Term) -> Optional[str]:
    """Dotted name of what a call term calls: 'torch.mul', '.view' for methods."""
    if t[0] != 'call':
        return None
    f = t[1]
    if f[0] == 'global':
        return f[1]
    if f[0] == 'attr':
        return '.' + f[2]
    return None


def is_call(t: Term, *names: str) -> bool:
    c = callee(t)
    if c is None:
        return False
    for n in names:
        if c == n or (n.startswith('.') and c == n) or c.endswith('.' + n.lstrip('.')) and \
                not n.startswith('.'):
            return True
    return False


def method_call(t: Term) -> Optional[Tuple[Term, str, tuple, tuple]]:
    """(receiver, method, args, kwargs) if the term is ``recv.method(...)``."""
    if t[0] == 'call' and t[1][0] == 'attr':
        return t[1][1], t[1][2], t[2], t[3]
    return None


def arg(t: Term, pos: int, name: Optional[str] = None) -> Optional[Term]:
    """Positional-or-keyword argument of a call term."""
    if t[0] != 'call':
        return None
    if pos is not None and pos < len(t[2]) and not any(a[0] == 'starred' for a in t[2][:pos + 1]):
        return t[2][pos]
    if name is not None:
        for k, v in t[3]:
            if k == name:
                return v
    return None


def bind_args(t: Term, params: List[str]) -> Dict[str, Term]:
    """Bind a call term's arguments to a parameter list (positional then keywords)."""
    out: Dict[str, Term] = {}
    for p, a in zip(params, t[2]):
        out[p] = a
    for k, v in t[3]:
        out[k] = v
    return out


def attr_chain(t: Term) -> Optional[List[str]]:
    """['self', 'out_features_masker', 'theta'] for self.out_features_masker.theta."""
    out = []
    while t[0] == 'attr':
        out.append(t[2])
        t = t[1]
    if t[0] == 'param':
        out.append(t[1])
        return list(reversed(out))
    if t[0] == 'global':
        out.append(t[1])
        return list(reversed(out))
    return None


def self_attr(name: str, base: Term = SELF) -> Term:
    return ('attr', base, name)


def strip_calls(t: Term, methods: Iterable[str]) -> Term:
    """Remove outer ``x.m(...)`` wrappers for m in methods (e.g. bool, detach, float)."""
    ms = set(methods)
    while True:
        mc = method_call(t)
        if mc and mc[1] in ms:
            t = mc[0]
            continue
        return t


def const_value(t: Term, default=None):
    return t[1] if t[0] == 'const' else default


# -- attribute types ----------------------------------------------------------------------
def annotation_classes(repo: Repo, fn: FunctionInfo, ann: Optional[ast.expr]) -> List[ClassInfo]:
    """Repository classes named in an annotation (Union/Optional unwrapped)."""
    out: List[ClassInfo] = []
    if ann is None:
        return out
    for n in ast.walk(ann):
        if isinstance(n, (ast.Name, ast.Attribute)):
            q = repo.resolve_expr_name(fn.module, n)
            if q and q in repo.classes:
                c = repo.classes[q]
                if c not in out:
                    out.append(c)
        if isinstance(n, ast.Constant) and isinstance(n.value, str):
            q = repo.resolve_name(fn.module, n.value)
            if q and q in repo.classes and repo.classes[q] not in out:
                out.append(repo.classes[q])
    return out


def param_classes(repo: Repo, fn: FunctionInfo, pname: str) -> List[ClassInfo]:
    a = fn.node.args
    for x in a.posonlyargs + a.args + a.kwonlyargs:
        if x.arg == pname:
            return annotation_classes(repo, fn, x.annotation)
    return []


def attr_classes(repo: Repo, ci: ClassInfo, attr: str) -> List[ClassInfo]:
    """Classes an instance attribute can hold, from the constructors of the hierarchy:
    ``self.attr = <annotated parameter>`` or ``self.attr = Ctor(...)``."""
    out: List[ClassInfo] = []
    for c in repo.mro(ci):
        if not isinstance(c, ClassInfo):
            continue
        init = c.methods.get('__init__')
        if init is None:
            continue
        for p in paths(repo, init):
            for e in p.events:
                if e.kind == 'setattr' and e.data[0] == SELF and e.data[1] == attr:
                    v = e.data[2]
                    if v[0] == 'param':
                        for k in param_classes(repo, init, v[1]):
                            if k not in out:
                                out.append(k)
                    elif v[0] == 'call' and v[1][0] == 'global' and v[1][1] in repo.classes:
                        k = repo.classes[v[1][1]]
                        if k not in out:
                            out.append(k)
    return out


# -- inlining ------------------------------------------------------------------------------
class Inliner:
    """Substitutes property reads and simple method calls on typed receivers by the terms
    they return (``phi`` of the alternatives when several paths return different terms)."""

    def __init__(self, repo: Repo, types: Dict[Term, ClassInfo], depth: int = 5,
                 only: Optional[Set[str]] = None, skip: Optional[Set[str]] = None):
        self.repo = repo
        self.types = dict(types)
        self.depth = depth
        self.only = only
        self.skip = skip or set()

    def type_of(self, t: Term) -> Optional[ClassInfo]:
        if t in self.types:
            return self.types[t]
        if t[0] == 'attr':
            bt = self.type_of(t[1])
            if bt is not None:
                cs = attr_classes(self.repo, bt, t[2])
                if len(cs) >= 1:
                    return cs[0]
        return None

    def expand(self, t: Any, depth: Optional[int] = None) -> Any:
        d = self.depth if depth is None else depth
        if not isinstance(t, tuple):
            return t
        if not t or not isinstance(t[0], str):
            return tuple(self.expand(x, d) for x in t)
        if d <= 0:
            return t
        k = t[0]
        if k == 'attr':
            base = self.expand(t[1], d)
            ty = self.type_of(t[1]) or self.type_of(base)
            if ty is not None and self._want(t[2]):
                g = self.repo.find_getter(ty, t[2])
                if g is not None:
                    return self._inline(g, {'self': base}, d)
            return ('attr', base, t[2])
        if k == 'call':
            f = t[1]
            args = tuple(self.expand(a, d) for a in t[2])
            kws = tuple((kk, self.expand(v, d)) for kk, v in t[3])
            if f[0] == 'attr':
                base = self.expand(f[1], d)
                ty = self.type_of(f[1]) or self.type_of(base)
                if ty is not None and self._want(f[2]):
                    m = self.repo.find_method(ty, f[2])
                    if m is not None and m.kind == 'method':
                        bind = {'self': base}
                        ps = m.params[1:]
                        for p, a in zip(ps, args):
                            bind[p] = a
                        for kk, v in kws:
                            bind[kk] = v
                        for p, dv in m.defaults().items():
                            if p not in bind and isinstance(dv, ast.Constant):
                                bind[p] = ('const', dv.value)
                        return self._inline(m, bind, d)
                return ('call', ('attr', base, f[2]), args, kws)
            return ('call', self.expand(f, d), args, kws)
        return (k,) + tuple(self.expand(x, d) for x in t[1:])

    def _want(self, name: str) -> bool:
        if name in self.skip:
            return False
        return self.only is None or name in self.only

    def _inline(self, fn: FunctionInfo, bind: Dict[str, Term], d: int) -> Term:
        rets = []
        for p in paths(self.repo, fn, bind):
            if p.status == 'return' and p.retval is not None:
                types = dict(self.types)
                if fn.cls is not None and bind['self'] not in types:
                    types[bind['self']] = fn.cls
                sub = Inliner(self.repo, types, d - 1, self.only, self.skip)
                v = sub.expand(p.retval, d - 1)
                if v not in rets:
                    rets.append(v)
        if not rets:
            return ('unknown', 'no return', fn.qualname)
        if len(rets) == 1:
            return rets[0]
        return ('phi', tuple(rets))


def where(fn: FunctionInfo, node: Optional[ast.AST] = None) -> str:
    ln = getattr(node, 'lineno', None) or fn.node.lineno
    return f'{fn.module.relpath}:{ln}'


def short(t: Term, n: int = 160) -> str:
    s = show(t)
    return s if len(s) <= n else s[:n] + '…'


def guards_of(p: State, ev: Event) -> List[Tuple[Term, bool]]:
    """Branch assumptions of the ``if`` statements that lexically enclose the event's node on
    this path (the conditions that *decide* whether the construct is reached), innermost
    last.  Assumptions made by unrelated earlier tests are not included."""
    out: List[Tuple[Term, bool]] = []
    if getattr(ev.node, 'lineno', None) is None:
        return out

    def frame(e):
        return tuple(c[1] for c in e.ctx if c and c[0] == 'inlined')
    fe = frame(ev)
    idx = p.events.index(ev) if ev in p.events else len(p.events)
    for e in p.events[:idx]:
        if e.kind != 'assume' or not isinstance(e.node, (ast.If, ast.While)):
            continue
        # a test made in another iteration of an (unrolled) loop does not govern this one
        la = tuple(c[1] for c in e.ctx if c and c[0] == 'loop')
        le = tuple(c[1] for c in ev.ctx if c and c[0] == 'loop')
        fa = frame(e)
        if len(fa) <= len(fe) and la != le[:len(la)]:
            continue
        if len(fa) > len(fe) and fa[:len(fe)] == fe:
            # a decision taken inside a helper that THIS statement calls (x = helper(...),
            # return helper(...)): it decides the value the statement stores / returns
            call = fa[len(fe)]
            inside = {id(x) for x in ast.walk(ev.node)} if ev.node is not None else set()
            # ... or inside the generator whose yield this loop iteration consumes
            inside |= {id(c[3]) for c in ev.ctx if c and c[0] == 'loop' and len(c) > 3}
            if id(call) in inside:
                out.append((e.data[0], e.data[1]))
            continue
        if fa != fe[:len(fa)]:
            continue
        # the construct as seen from the test's frame: itself, or the call through which the
        # helper containing it was entered
        target = ev.node if len(fa) == len(fe) else fe[len(fa)]
        ln = getattr(target, 'lineno', None)
        n = e.node
        if ln is not None and n.lineno <= ln <= (n.end_lineno or n.lineno):
            out.append((e.data[0], e.data[1]))
    return out


def resolve_stores(p: State, idx: int, t: Term, base: Term = SELF, depth: int = 4) -> Term:
    """Replace reads ``base.a`` inside ``t`` by the value most recently stored to ``base.a``
    before event ``idx`` on this path (flow-sensitive view of attribute state)."""
    last: Dict[str, Tuple[int, Term]] = {}
    for i, e in enumerate(p.events[:idx]):
        if e.kind == 'setattr' and e.data[0] == base:
            last[e.data[1]] = (i, e.data[2])

    def sub(x, d):
        if not isinstance(x, tuple):
            return x
        if x and x[0] == 'attr' and x[1] == base and x[2] in last and d > 0:
            i, v = last[x[2]]
            return resolve_stores(p, i, v, base, d - 1)
        return tuple(sub(y, d) for y in x)
    return sub(t, depth)


def events_inlined(repo: Repo, ci: ClassInfo, p: State, depth: int = 2, _seen=()):
    """Events of a path with calls to methods of the same object (``self.helper(args)``)
    expanded: the helper's events, over all its paths, with its parameters bound to the actual
    arguments (so stores made by a helper appear in the caller's terms, e.g.
    ``setattr(layer, attr, value)`` with attr bound to a constant becomes a store of that
    attribute).  Each expanded event carries the caller's context followed by its own."""
    for e in p.events:
        yield e
        if e.kind != 'call' or depth <= 0:
            continue
        mc = method_call(e.data[0])
        if mc is None or mc[0] != SELF:
            continue
        m = repo.find_method(ci, mc[1])
        if m is None or m.kind not in ('method', 'static') or m.qualname in _seen or \
                not m.module.name.startswith('plinio.'):
            continue
        if m.kind == 'static':
            bind, formal = {}, m.params
        else:
            bind, formal = {m.params[0]: SELF}, m.params[1:]
        for prm, a in zip(formal, mc[2]):
            bind[prm] = a
        for k, a in mc[3]:
            bind[k] = a
        for q in paths(repo, m, bind):
            for e2 in events_inlined(repo, ci, q, depth - 1, _seen + (m.qualname,)):
                yield Event(e2.kind, e2.data, e2.node, tuple(e.ctx) + tuple(e2.ctx))


def prior_assumes(p: State, ev: Event) -> List[Tuple[Term, bool]]:
    """(atom, polarity) of every branch decision taken on this path before the event (the tests
    of enclosing ifs AND of earlier if/continue, if/return guards)."""
    out = []
    for e in p.events:
        if e is ev:
            break
        if e.kind == 'assume':
            out.append((e.data[0], e.data[1]))
    return out


def path_guards(p: State, ev: Event) -> List[Tuple[Term, bool]]:
    """guards_of plus the decisions taken EARLIER in the same loop iteration(s) on this path
    (if c: return / continue / break guards): "if c: return A" followed by "return B" governs B
    by not-c exactly as the else branch would."""
    out = list(guards_of(p, ev))
    le = tuple(c[1] for c in ev.ctx if c and c[0] == 'loop')
    for e in p.events:
        if e is ev:
            break
        if e.kind != 'assume' or not isinstance(e.node, (ast.If, ast.While)):
            continue
        la = tuple(c[1] for c in e.ctx if c and c[0] == 'loop')
        if la != le[:len(la)]:
            continue
        g = (e.data[0], e.data[1])
        if g not in out:
            out.append(g)
    return out


def _replace(t, a, b):
    if t == a:
        return b
    if isinstance(t, tuple):
        return tuple(_replace(x, a, b) for x in t)
    return t


def truth_under(c: Term, assumptions) -> Optional[bool]:
    """truth of a condition given the atoms a path has assumed (three-valued)"""
    for a, v in assumptions:
        if a == c:
            return v
    if c[0] == 'un' and c[1] == 'not':
        v = truth_under(c[2], assumptions)
        return None if v is None else not v
    if c[0] == 'bool':
        vals = [truth_under(x, assumptions) for x in c[2]]
        if c[1] == 'and':
            if any(v is False for v in vals):
                return False
            return True if all(v is True for v in vals) else None
        if any(v is True for v in vals):
            return True
        return False if all(v is False for v in vals) else None
    if c[0] == 'const':
        return bool(c[1])
    return None


def split_ifexp(p: State, max_conds: int = 3) -> List[State]:
    """Conditional expressions lifted to path splits: ``x = A if c else B`` is analysed like
    ``if c: x = A else: x = B``.  Every distinct undecided condition of a conditional expression
    occurring in the path's events / return value (not depending on a loop variable) yields
    two copies of the path, with the expression replaced by the chosen alternative everywhere
    and the condition recorded as an assumption.  Copies that contradict an assumption the path
    already holds are dropped."""
    conds = []
    terms = [x for e in p.events for x in e.data if isinstance(x, tuple)]
    if p.retval is not None:
        terms.append(p.retval)
    for t in terms:
        for x in subterms(t):
            if x[0] == 'ifexp' and x[1] not in conds and \
                    not mentions(x[1], lambda y: y[0] == 'elem'):
                conds.append(x[1])
    out = [p]
    for c in conds[:max_conds]:
        nxt = []
        for q in out:
            kv = truth_under(c, q.assumptions)
            known = [] if kv is None else [kv]
            for pol in (True, False):
                if known and known[0] != pol:
                    continue
                r = q.fork()

                def pick(t, c=c, pol=pol):
                    if isinstance(t, tuple):
                        if t and t[0] == 'ifexp' and t[1] == c:
                            return pick(t[2] if pol else t[3])
                        return tuple(pick(x) for x in t)
                    return t
                r.events = [Event(e.kind, tuple(pick(x) for x in e.data), e.node, e.ctx)
                            for e in q.events]
                r.retval = pick(q.retval) if q.retval is not None else None
                r.env = {k: pick(v) for k, v in q.env.items()}
                if not known:
                    r.assumptions = list(q.assumptions) + [(c, pol)]
                nxt.append(r)
        out = nxt
    return out


def paths_split(repo: Repo, fn: FunctionInfo, bind=None) -> List[State]:
    out: List[State] = []
    for p in paths(repo, fn, bind):
        out += split_ifexp(p)
    return out


def inline_globals(repo: Repo, t: Term, depth: int = 2) -> Term:
    """Calls of small module-level repository functions (one returning path, no loop)
    replaced by the term they return, with parameters bound to the arguments."""
    if not isinstance(t, tuple) or depth <= 0:
        return t
    if t and t[0] == 'call':
        c = callee(t)
        f = repo.functions.get(c) if c else None
        if f is not None and f.cls is None and f.module.name.startswith('plinio.'):
            bind = {}
            for prm, a in zip(f.params, t[2]):
                bind[prm] = inline_globals(repo, a, depth)
            for k, a in t[3]:
                bind[k] = inline_globals(repo, a, depth)
            try:
                ps = [q for q in paths(repo, f, bind) if q.status == 'return']
            except AnalysisError:
                ps = []
            if len(ps) == 1 and ps[0].retval is not None and \
                    not any(e.kind in ('loop0', 'loopend', 'setattr', 'setitem') for e in ps[0].events):
                return inline_globals(repo, ps[0].retval, depth - 1)
    return tuple(inline_globals(repo, x, depth) for x in t)


# tensor operations that exist both as ``torch.f(x, ...)`` and as ``x.f(...)``
_TORCH_DUAL = {'rsqrt', 'sqrt', 'abs', 'exp', 'log', 'neg', 'reciprocal', 'square', 'mul', 'add',
               'sub', 'div', 'sum', 'mean', 'amax', 'amin', 'argmax', 'argmin', 'softmax',
               'flatten', 'reshape', 'clamp', 'clip', 'round', 'floor', 'ceil', 'flip',
               'transpose', 't', 'matmul', 'mm', 'mv', 'pow', 'sigmoid', 'tanh', 'relu'}


def canon_torch(t):
    """One spelling for operations torch offers twice: ``x.f(a)`` -> ``torch.f(x, a)`` for the
    dual tensor operations, ``len(x.shape)`` / ``x.ndim`` / ``x.ndimension()`` -> ``x.dim()``,
    ``x.size()`` -> ``x.shape``.  Purely syntactic, value-preserving."""
    if not isinstance(t, tuple):
        return t
    t = tuple(canon_torch(x) for x in t)
    if t and t[0] == 'call':
        mc = method_call(t)
        if mc and mc[1] in _TORCH_DUAL and mc[0][0] != 'global':
            return ('call', ('global', 'torch.' + mc[1]), (mc[0],) + tuple(mc[2]), t[3])
        if mc and mc[1] in ('ndimension',) and not mc[2]:
            return ('call', ('attr', mc[0], 'dim'), (), ())
        if is_call(t, 'builtins.len') and len(t[2]) == 1 and t[2][0][0] == 'attr' and \
                t[2][0][2] == 'shape':
            return ('call', ('attr', t[2][0][1], 'dim'), (), ())
        if mc and mc[1] == 'size' and not mc[2] and not t[3]:
            return ('attr', mc[0], 'shape')
    if t and t[0] == 'attr' and t[2] == 'ndim':
        return ('call', ('attr', t[1], 'dim'), (), ())
    return t


_global_terms: Dict[Tuple[int, str], Optional[Term]] = {}


def global_value_term(repo: Repo, qual: str) -> Optional[Term]:
    """Term of a module-level constant ``NAME = <expression>`` (None when the name is not a
    single module-level assignment)."""
    key = (id(repo), qual)
    if key in _global_terms:
        return _global_terms[key]
    _global_terms[key] = None
    import ast as _ast
    modname, _, name = qual.rpartition('.')
    mod = repo.modules.get(modname)
    if mod is None:
        return None
    sts = mod.assigns.get(name, [])
    if len(sts) != 1 or not isinstance(sts[0], (_ast.Assign, _ast.AnnAssign)) or \
            sts[0].value is None:
        return None
    node = _ast.parse('def _verif_const():\n    pass').body[0]
    fi = FunctionInfo('_verif_const', modname + '._verif_const', node, mod, None, 'function')
    try:
        ev = Evaluator(repo, fi)
        _global_terms[key] = ev.expr(sts[0].value, State({}))
    except Exception:       # noqa: BLE001
        _global_terms[key] = None
    return _global_terms[key]


def resolve_namedtuples(repo: Repo, t):
    """Construction of a repository NamedTuple followed by an element / field access is the
    value that was passed: ``Info(a=x, b=y)[1]`` and ``Info(a=x, b=y).b`` are ``y``."""
    if not isinstance(t, tuple):
        return t
    t = tuple(resolve_namedtuples(repo, x) for x in t)

    def fields_of(call):
        c = callee(call) if call and call[0] == 'call' else None
        ci = repo.classes.get(c) if c else None
        if ci is None or not any(str(b).endswith('NamedTuple') for b in repo.external_bases(ci)):
            return None
        names = [st.target.id for st in ci.node.body
                 if isinstance(st, ast.AnnAssign) and isinstance(st.target, ast.Name)]
        vals = dict(zip(names, call[2]))
        vals.update({k: v for k, v in call[3] if k in names})
        return names, vals
    if t and t[0] == 'sub' and t[2][0] == 'const' and isinstance(t[2][1], int):
        f = fields_of(t[1])
        if f and 0 <= t[2][1] < len(f[0]) and f[0][t[2][1]] in f[1]:
            return f[1][f[0][t[2][1]]]
    if t and t[0] == 'attr':
        f = fields_of(t[1])
        if f and t[2] in f[1]:
            return f[1][t[2]]
    return t


def resolve_globals(repo: Repo, t):
    """Module-level constant tables (dict / tuple / list literals) substituted for their names."""
    if not isinstance(t, tuple):
        return t
    if len(t) == 2 and t[0] == 'global' and isinstance(t[1], str) and t[1].startswith('plinio.'):
        gv = global_value_term(repo, t[1])
        if gv is not None and gv[0] in ('dict', 'tuple', 'list'):
            return gv
        return t
    return tuple(resolve_globals(repo, x) for x in t)
