#!/venv/bin/python
"""Regenerates /verif/MANIFEST.json from the rule modules that exist under sa/rules/.

A property is claimed iff sa/rules/<id>.py exists and defines MANIFEST (level text,
note, technique).  Everything else is listed under not_applicable with the reason kept in
NOT_APPLICABLE below.
"""
import importlib
import json
import sys
from pathlib import Path

VERIF = Path(__file__).resolve().parent.parent
sys.path.insert(0, str(VERIF))

PY = '/venv/bin/python'
BASELINE = ('cd /repo && /venv/bin/python -m pytest -ra -q -p no:cacheprovider --timeout=900 '
            '--continue-on-collection-errors')

NOT_APPLICABLE = {
}

props = [json.loads(l)['id'] for l in (VERIF / 'properties.jsonl').read_text().splitlines() if l]
checks, na = [], []
for pid in props:
    p = VERIF / 'sa' / 'rules' / f'{pid.lower()}.py'
    mod = None
    if p.exists():
        mod = importlib.import_module(f'sa.rules.{pid.lower()}')
    if mod is not None and hasattr(mod, 'MANIFEST'):
        m = mod.MANIFEST
        checks.append({
            'property_id': pid,
            'quick_cmd': f'{PY} sa/check.py {pid} --tier quick',
            'thorough_cmd': f'{PY} sa/check.py {pid} --tier thorough',
            'evidence_file': f'/verif/evidence/{pid}.json',
            'replay_cmd_template': f'{PY} sa/check.py {pid} --replay {{path}}',
            'engine': 'sa',
            'level_claimed': {'category': getattr(mod, 'LEVEL', 'other'), 'text': m['text'],
                              'design_ref': m.get('design_ref', f'DESIGN.md section 4, {pid}')},
            'level_note': m['note'],
            'technique': m['technique'],
        })
    else:
        na.append({'property_id': pid,
                   'reason': NOT_APPLICABLE.get(pid, 'static check not built yet in this round; '
                                                'no claim is made')})

manifest = {
    'version': 1,
    'setup_cmd': 'true',
    'hooks': {
        'guard': 'EML_EDA_PLINIO_VERIF',
        'enable': 'none needed: the checks parse /repo, nothing in /repo is instrumented',
        'baseline_off_cmd': BASELINE,
        'source_commits': [],
        'add_only': True,
    },
    'engines': [{
        'name': 'sa',
        'path': '/verif/sa',
        'serves_properties': [c['property_id'] for c in checks],
        'kind_free_text': 'repository-specific static analysis on the stdlib ast: program model '
                          '(imports, MRO, torch base-class facts parsed from torch source), '
                          'path-enumerating def-use term evaluator, finite-domain abstract '
                          'interpreter, sign/monotonicity domain, effect summaries',
    }],
    'checks': checks,
    'not_applicable': na,
    'notes': 'Every check re-parses /repo (VERIF_REPO overrides) on each run and never imports or '
             'runs plinio or torch. exit 0 holds / 1 VIOLATION / 2 ANALYSIS-ERROR. '
             'known_findings.json lists triaged genuine defects (KNOWN-FINDING lines, exit 0).',
}
(VERIF / 'MANIFEST.json').write_text(json.dumps(manifest, indent=1) + '\n')
print(f'{len(checks)} checks, {len(na)} not applicable')
