#!/venv/bin/python
"""Copies a confirmed seeded change from /tmp/seed/<id> into /verif/seeded/<name>/ (patch.diff, demo.py,
notes.md, meta.json) and records which checks report it.  usage: store_seed.py C03 [name] [basedir]"""
import json, subprocess, sys, shutil, os, tempfile
from pathlib import Path
sid = sys.argv[1]
name = sys.argv[2] if len(sys.argv) > 2 else sid
base = Path(sys.argv[3]) if len(sys.argv) > 3 else Path('/tmp/seed')
src = base / sid / '_seed'
dst = Path('/verif/seeded') / name
dst.mkdir(parents=True, exist_ok=True)
for f in ('patch.diff', 'demo.py', 'notes.md'):
    shutil.copy(src / f, dst / f)
confirm = (src / 'confirm.txt').read_text() if (src / 'confirm.txt').exists() else ''
# which checks fire
tmp = Path(tempfile.mkdtemp(prefix='seedtry-'))
shutil.copytree('/repo/plinio', tmp / 'plinio', ignore=shutil.ignore_patterns('__pycache__'))
subprocess.run(['patch', '-p1', '-s', '-i', str(dst / 'patch.diff')], cwd=tmp, check=True)
fired = {}
for i in range(1, 21):
    p = f'C{i:02d}'
    r = subprocess.run(['/venv/bin/python', 'sa/check.py', p], cwd='/verif', capture_output=True, text=True,
                       env=dict(os.environ, VERIF_REPO=str(tmp), VERIF_EVIDENCE_DIR=str(tmp / 'ev')))
    if r.returncode != 0:
        lines = [l.strip()[:300] for l in r.stdout.splitlines() if l.strip().startswith('refuted') or 'ANALYSIS-ERROR' in l]
        fired[p] = {'exit': r.returncode, 'reports': lines[:4]}
shutil.rmtree(tmp, ignore_errors=True)
prop = json.load(open(base / f'{sid}.property.json'))
meta = {
    'seed': name, 'breaks_property': sid, 'property_title': prop['title'],
    'origin': 'written by an independent sub-agent that was given only the property record and a scratch git worktree '
              'of /repo (nothing from /verif)',
    'needs_to_manifest': 'see notes.md',
    'confirmed_by_me': {
        'how': 'in the scratch worktree: demo.py with the change (must exit non-zero), with the change reverse-applied '
               '(must exit 0), and the full baseline pytest command with the change applied (must keep 132 passed)',
        'log': confirm.strip().splitlines(),
    },
    'checks_that_report_it': fired,
    'reported_by_target_property_check': sid in fired and fired[sid]['exit'] == 1,
}
(dst / 'meta.json').write_text(json.dumps(meta, indent=1))
print(name, 'fired:', {k: v['exit'] for k, v in fired.items()})
