#!/bin/bash
# usage: tools/try_benign_par.sh <basedir> -- every <basedir>/*/_ref/NN.diff, 16 at a time; one line per patch
base=$1
one() {
  pf=$1
  tmp=$(mktemp -d /tmp/bentry-XXXX)
  cp -r /repo/plinio $tmp/plinio
  if ! (cd $tmp && patch -p1 -s < "$pf" >/dev/null 2>&1); then echo "$pf: does not apply"; rm -rf $tmp; return; fi
  bad=""
  for i in $(seq -w 1 20); do
    out=$(cd /verif && VERIF_REPO=$tmp VERIF_EVIDENCE_DIR=$tmp/ev /venv/bin/python sa/check.py C$i 2>&1); e=$?
    if [ $e -ne 0 ]; then bad="$bad C$i($e)"; fi
  done
  echo "$pf: ${bad:-silent}"
  rm -rf $tmp
}
export -f one
ls $base/*/_ref/*.diff | xargs -P 16 -I{} bash -c 'one {}' | sort
