#!/venv/bin/python
"""Runs only the must-fire variants of the self-test (textual mutants + seeded patches) against
their own property's check, 16 at a time (about 6 minutes for all of them): the quick way to make
sure that an engine / rule change has not blinded a rule.  usage: tools/mustfire.py [C03 C16 ...]"""
import importlib.util
import json
import sys
from concurrent.futures import ThreadPoolExecutor
from pathlib import Path

VERIF = Path(__file__).resolve().parent.parent
only = set(sys.argv[1:])
sys.argv = ['run.py']
spec = importlib.util.spec_from_file_location('run', str(VERIF / 'selftest' / 'run.py'))
run = importlib.util.module_from_spec(spec)
spec.loader.exec_module(run)
muts = json.loads((VERIF / 'selftest' / 'mutants.json').read_text())
for d in sorted((VERIF / 'seeded').glob('*/meta.json')):
    meta = json.loads(d.read_text())
    muts.append({'id': 'seed-' + d.parent.name, 'props': [meta['breaks_property']],
                 'patch': str((d.parent / 'patch.diff').relative_to(VERIF)), 'expect': 'refuted'})
muts = [m for m in muts if not m.get('benign') and (not only or set(m['props']) & only)]
bad = 0
with ThreadPoolExecutor(16) as ex:
    for m, status, txt in ex.map(lambda m: run.run_one(m), muts):
        if status != 'OK':
            bad += 1
            print(status, m['id'], txt[-300:])
print(len(muts), 'must-fire variants,', bad, 'not as expected')
sys.exit(1 if bad else 0)
