#!/bin/bash
# usage: tools/try_seed.sh <patch.diff> [props...]  -- applies the patch to a scratch copy of /repo/plinio and runs checks
set -e
patch=$1; shift
tmp=$(mktemp -d /tmp/seedtry-XXXX)
cp -r /repo/plinio $tmp/plinio
(cd $tmp && patch -p1 -s < "$patch")
cd /verif
props="$@"; [ -z "$props" ] && props="C01 C02 C03 C04 C05 C06 C07 C08 C09 C10 C11 C12 C13 C14 C15 C16 C17 C18 C19 C20"
for p in $props; do
  out=$(VERIF_REPO=$tmp VERIF_EVIDENCE_DIR=$tmp/ev /venv/bin/python sa/check.py $p 2>&1) && e=0 || e=$?
  if [ $e -ne 0 ]; then echo "== $p exit=$e"; echo "$out" | grep -E "refuted|ANALYSIS" | cut -c1-420 | head -14; fi
done
echo "(done $patch)"
rm -rf $tmp
