#!/bin/bash
# runs the 20 quick checks against VERIF_REPO (default /repo); prints one line each
cd "$(dirname "$0")/.."
rc=0
for i in 01 02 03 04 05 06 07 08 09 10 11 12 13 14 15 16 17 18 19 20; do
  out=$(/venv/bin/python sa/check.py C$i 2>&1); e=$?
  echo "C$i exit=$e $(echo "$out" | tail -1)"
  [ $e -ne 0 ] && rc=1
done
exit $rc
