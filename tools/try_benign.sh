#!/bin/bash
# usage: tools/try_benign.sh <dir with NN.diff> -- applies each patch alone to a scratch copy of /repo/plinio and runs all 20 checks;
# prints the checks that do not exit 0 (a false alarm, or an analysis error, on behaviour-preserving code)
d=$1
for pf in $d/*.diff; do
  tmp=$(mktemp -d /tmp/bentry-XXXX)
  cp -r /repo/plinio $tmp/plinio
  if ! (cd $tmp && patch -p1 -s < "$pf" >/dev/null 2>&1); then echo "$(basename $pf): does not apply"; rm -rf $tmp; continue; fi
  bad=""
  for i in $(seq -w 1 20); do
    out=$(cd /verif && VERIF_REPO=$tmp VERIF_EVIDENCE_DIR=$tmp/ev /venv/bin/python sa/check.py C$i 2>&1); e=$?
    if [ $e -ne 0 ]; then bad="$bad C$i($e)"; echo "--- $(basename $pf) C$i exit=$e"; echo "$out" | grep -E "  refuted|ANALYSIS" | cut -c1-330 | head -4; fi
  done
  echo "$(basename $pf): ${bad:-all 20 checks silent}"
  rm -rf $tmp
done
