#!/venv/bin/python
"""Copies behaviour-preserving refactoring patches written by an independent sub-agent from /tmp/ref/<group>/_ref/NN.diff into
selftest/patches/ref-<group>-NN.diff and registers each as a benign variant (must stay silent) for the given properties.
usage: store_benign.py R01 C01 C08 [C11 ...]"""
import json, os, shutil, sys
from pathlib import Path
g, props = sys.argv[1], sys.argv[2:]
src = Path(os.environ.get('REF_BASE', '/tmp/ref')) / g / '_ref'
dst = Path('/verif/selftest/patches')
dst.mkdir(exist_ok=True)
mp = Path('/verif/selftest/mutants.json')
m = json.loads(mp.read_text())
ids = {x['id'] for x in m}
notes = (src / 'notes.md').read_text() if (src / 'notes.md').exists() else ''
for pf in sorted(src.glob('[0-9][0-9].diff')):
    name = f'ref-{g}-{pf.stem}'
    shutil.copy(pf, dst / f'{name}.diff')
    if name not in ids:
        m.append({'id': name, 'props': props, 'benign': True,
                  'why': f'benign: refactoring {pf.stem} by an independent sub-agent (group {g})',
                  'patch': f'selftest/patches/{name}.diff'})
if notes:
    (dst / f'ref-{g}-notes.md').write_text(notes)
mp.write_text(json.dumps(m, indent=1))
print(g, len(list(src.glob('[0-9][0-9].diff'))), 'patches stored for', props)
