"""C20 (repaired): candidates were priced with shares in sorted order against precisions in the
original order; for a non-ascending precision tuple the refinement could raise the cost.
run: cd /repo && /venv/bin/python /verif/findings/demos/c20_pricing_order.py   (exit 0 after the fix)"""
import contextlib
import io
import torch
import torch.nn as nn
from plinio.methods import MPS
from plinio.methods.mps import get_default_qinfo, MPSType
from plinio.methods.mps.utils import optimize_prec_assignment
from plinio.cost import ne16_latency

worse = []
for seed in range(8):
    for ch in (16, 32):
        class Net(nn.Module):
            def __init__(self):
                super().__init__()
                self.c1 = nn.Conv2d(3, ch, 3, padding=1)
                self.r = nn.ReLU()
                self.c2 = nn.Conv2d(ch, ch, 3, padding=1)
                self.fc = nn.Linear(ch * 64, 4)

            def forward(self, x):
                return self.fc(self.r(self.c2(self.r(self.c1(x)))).flatten(1))
        torch.manual_seed(seed)
        m = MPS(Net(), input_shape=(3, 8, 8), w_search_type=MPSType.PER_CHANNEL,
                cost={'ne16': ne16_latency},
                qinfo=get_default_qinfo(w_precision=(4, 8, 2), a_precision=(8,)))
        with torch.no_grad():
            for n, p in m.named_nas_parameters():
                if p.dim() == 2:        # converged per-channel search: near one-hot columns
                    pick = torch.randint(0, p.shape[0], (p.shape[1],))
                    p.copy_(0.05 * torch.rand_like(p))
                    p[pick, torch.arange(p.shape[1])] += 1.0
                else:
                    p.copy_(torch.rand_like(p))
        m.update_softmax_options(hard=True)
        m.eval()
        m(torch.rand(1, 3, 8, 8))
        before = float(m.get_cost('ne16'))
        buf = io.StringIO()
        with contextlib.redirect_stdout(buf):
            m2 = optimize_prec_assignment(m, 'ne16')
        believed = float(buf.getvalue().strip().splitlines()[-1].split(' to ')[-1])
        m2(torch.rand(1, 3, 8, 8))
        after = float(m2.get_cost('ne16'))
        if after > before + 1e-3 or abs(after - believed) > 1e-3:
            worse.append((seed, ch, before, believed, after))
print('runs (seed, channels, cost before, cost the refinement believes it reached, actual cost after) where the\n'
      'cost rose or the believed cost is not the actual one:', worse[:6], '...', len(worse), 'of 16')
raise SystemExit(1 if worse else 0)
