"""C09 — the features axis spelled with a negative index (flatten(x, -3), torch.cat(.., dim=-3) on
NCHW tensors) and the last axis spelled positively (x.squeeze(3)) are mis-classified by the
graph passes: consumers report a number of input features that is not the number of alive
features of the tensor feeding them.  Exits 1 when a mismatch is observed."""
import sys
import torch
import torch.nn as nn
from plinio.methods import PIT

bad = []


class FlatNeg(nn.Module):
    def __init__(self):
        super().__init__()
        self.c = nn.Conv2d(3, 4, 3, padding=1)
        self.fc = nn.Linear(4 * 6 * 6, 5)

    def forward(self, x):
        return self.fc(torch.flatten(torch.relu(self.c(x)), -3))


class CatNeg(nn.Module):
    def __init__(self):
        super().__init__()
        self.a = nn.Conv2d(3, 4, 3, padding=1)
        self.b = nn.Conv2d(3, 6, 3, padding=1)
        self.c = nn.Conv2d(10, 5, 3, padding=1)
        self.fc = nn.Linear(5 * 6 * 6, 2)

    def forward(self, x):
        y = torch.cat((self.a(x), self.b(x)), dim=-3)
        return self.fc(torch.flatten(torch.relu(self.c(y)), 1))


class SqueezeLast(nn.Module):
    def __init__(self):
        super().__init__()
        self.c = nn.Conv2d(3, 4, (1, 6))
        self.d = nn.Conv1d(4, 5, 3, padding=1)
        self.fc = nn.Linear(5 * 6, 2)

    def forward(self, x):
        y = torch.relu(self.c(x)).squeeze(3)        # (N, 4, 6, 1) -> (N, 4, 6)
        return self.fc(torch.flatten(self.d(y), 1))


def run(name, net, consumer, want):
    x = torch.rand(2, 3, 6, 6)
    try:
        pit = PIT(net, input_example=x)
        got = int(pit.seed.get_submodule(consumer).input_features_calculator.features)
        exp = pit.export()
        ok = got == want and exp(x).shape == net(x).shape
        print(f'{name}: {consumer} reports {got} input features, the tensor has {want}')
    except Exception as e:      # noqa: BLE001
        ok = False
        print(f'{name}: {type(e).__name__}: {str(e)[:120]}')
    if not ok:
        bad.append(name)


run('flatten(x, -3)', FlatNeg(), 'fc', 4 * 36)
run('cat(dim=-3)', CatNeg(), 'c', 10)
run('squeeze(3)', SqueezeLast(), 'd', 4)
if bad:
    print('MISMATCH:', bad)
    sys.exit(1)
print('ok')
