import torch, torch.nn as nn
from plinio.methods import PIT
class Net(nn.Module):
    def __init__(self):
        super().__init__()
        self.s = nn.Conv2d(3, 4, 3, padding=1)
        self.a = nn.Conv2d(4, 5, 3, padding=1)
        self.b = nn.Conv2d(4, 6, 3, padding=1)
    def forward(self, x):
        x = torch.relu(self.s(x))
        return torch.cat((self.a(x), self.b(x)), dim=1)
torch.manual_seed(0)
m = Net(); x = torch.randn(2,3,8,8)
p = PIT(m, input_shape=(3,8,8))
for n_, par in p.named_nas_parameters(): print(n_, tuple(par.shape))
with torch.no_grad():
    for n_, par in p.named_nas_parameters():
        if 'a.' in n_ or n_.startswith('seed.a') or '.a.' in n_: par[0] = 0.0
p.eval(); y = p(x); e = p.export().eval(); z = e(x)
print(y.shape, z.shape)
