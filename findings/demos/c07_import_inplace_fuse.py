"""C07 known finding: PIT(model, autoconvert_layers=False) with user-placed PIT layers fuses the
following BatchNorm into the caller's layer objects in place.
run: cd /repo && /venv/bin/python /verif/findings/demos/c07_import_inplace_fuse.py"""
import copy
import torch
import torch.nn as nn
from plinio.methods import PIT
from plinio.methods.pit.nn import PITConv2d
from plinio.methods.pit.nn.features_masker import PITFeaturesMasker

torch.manual_seed(0)


class Net(nn.Module):
    def __init__(self):
        super().__init__()
        self.c1 = PITConv2d(nn.Conv2d(3, 8, 3, padding=1), PITFeaturesMasker(8))
        self.bn = nn.BatchNorm2d(8)
        self.r = nn.ReLU()
        self.fc = nn.Linear(8 * 8 * 8, 4)

    def forward(self, x):
        return self.fc(self.r(self.bn(self.c1(x))).flatten(1))


net = Net()
with torch.no_grad():
    net.bn.running_mean.uniform_(-1, 1)
    net.bn.running_var.uniform_(0.5, 2)
    net.bn.weight.uniform_(0.5, 2)
    net.bn.bias.uniform_(-1, 1)
net.eval()
x = torch.randn(2, 3, 8, 8)
y0 = net(x)
w0 = net.c1.weight.detach().clone()
p = PIT(net, input_shape=(3, 8, 8), autoconvert_layers=False)
y1 = net(x)
dw = float((net.c1.weight - w0).abs().max())
dy = float((y1 - y0).abs().max())
print('user model after PIT(model): max |dW(c1)| =', dw, ' max |dy| =', dy,
      ' c1.bn set:', getattr(net.c1, 'bn', None) is not None)
raise SystemExit(1 if dw > 0 or dy > 1e-6 else 0)
