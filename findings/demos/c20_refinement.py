"""C20 known findings: optimize_prec_assignment hands the chosen shares to _reassign_precisions in
the wrong (sorted / doubly permuted) order and derives counts from float-stepped shares.
run: cd /repo && /venv/bin/python /verif/findings/demos/c20_refinement.py"""
import contextlib
import io
import re
import torch
import torch.nn as nn
from plinio.methods import MPS
from plinio.methods.mps import get_default_qinfo, MPSType
from plinio.methods.mps.utils import optimize_prec_assignment, _reassign_precisions
from plinio.cost import ne16_latency

bad = 0
# (1) counts from float shares: 3 precisions x 6 channels, shares 1/6 + 2/6 + 3/6 accumulated as
# the refinement does (repeated +- 1/C in float32), then multiplied by C and truncated by int()
C = 6
share = torch.zeros(3)
step = 1.0 / C
for i, k in enumerate((1, 2, 3)):
    for _ in range(k):
        share[i] += step
best = share * C
scores = torch.rand(3, C)
m = _reassign_precisions(best, scores)
print('targets', [float(b) for b in best], '-> int()', [int(b.item()) for b in best],
      ' counts met', m.sum(dim=1).tolist(), ' channels with a precision', int(m.sum().item()), 'of', C)
if m.sum(dim=1).tolist() != [1.0, 2.0, 3.0]:
    bad += 1

# (2) end to end: for precisions (4, 8, 2) argsort is a 3-cycle, so gathering with it twice is not the identity
# not the identity and is applied twice
torch.manual_seed(3)


class Net(nn.Module):
    def __init__(self):
        super().__init__()
        self.c1 = nn.Conv2d(3, 24, 3, padding=1)
        self.r = nn.ReLU()
        self.c2 = nn.Conv2d(24, 24, 3, padding=1)
        self.fc = nn.Linear(24 * 8 * 8, 4)

    def forward(self, x):
        return self.fc(self.r(self.c2(self.r(self.c1(x)))).flatten(1))


for precs in ((2, 4, 8), (4, 8, 2)):
    torch.manual_seed(3)
    m = MPS(Net(), input_shape=(3, 8, 8), w_search_type=MPSType.PER_CHANNEL,
            cost={'ne16': ne16_latency},
            qinfo=get_default_qinfo(w_precision=precs, a_precision=(8,)))
    with torch.no_grad():
        for n, p in m.named_nas_parameters():
            p.copy_(torch.rand_like(p))
    m.update_softmax_options(hard=True)
    m.eval()
    m(torch.rand(1, 3, 8, 8))
    def assignment(model):
        out = {}
        for name, mod in model.named_modules():
            q = getattr(mod, 'w_mps_quantizer', None)
            if q is not None and hasattr(q, 'alpha') and q.alpha.dim() == 2:
                precs_t = torch.tensor([float(p) for p in q.precision])
                out[name] = precs_t[q.alpha.argmax(dim=0)].tolist()
        return out
    before = assignment(m)
    cost_before = float(m.get_cost('ne16'))
    buf = io.StringIO()
    with contextlib.redirect_stdout(buf):
        m2 = optimize_prec_assignment(m, 'ne16')
    lines = buf.getvalue().splitlines()
    chosen = [[float(v) for v in re.findall(r'-?[0-9.]+(?:e-?[0-9]+)?', l.split(':', 1)[1])]
              for l in lines if l.strip().startswith('new:')]
    negative = [c for c in chosen if any(v < -1e-3 for v in c)]
    m2(torch.rand(1, 3, 8, 8))
    cost_after = float(m2.get_cost('ne16'))
    after = assignment(m2)
    demoted = {k: sum(1 for x, y in zip(before[k], after[k]) if y < x) for k in before}
    counts_after = {k: {p: after[k].count(p) for p in sorted(set(after[k]))} for k in after}
    print('precisions', precs, ' cost before', cost_before, ' after', cost_after)
    print('   last counts chosen by the refinement:', chosen[-3:] if chosen else None)
    print('   per-precision counts actually assigned:', counts_after)
    print('   demoted channels per layer:', demoted)
    if negative:
        print('   negative channel counts chosen (float-stepped share overshoots 0):', negative[:2])
    if negative or any(demoted.values()) or cost_after > cost_before + 1e-3:
        bad += 1
raise SystemExit(1 if bad else 0)
