"""C09 (fixed): flatten with an explicit end_dim.  add_features_calculator multiplied the producer's
features by prod(input_shape[2:end_dim]) -- the slice stops one axis early -- so a layer fed by
torch.flatten(x, 1, 2) reported C instead of C*H input features and export raised an IndexError.
Run from /repo:  /venv/bin/python /verif/findings/demos/c09_flatten_end_dim.py   (exit 1 = defect present)"""
import sys
import torch
import torch.nn as nn
from plinio.methods import PIT


class Net(nn.Module):
    def __init__(self):
        super().__init__()
        self.c2 = nn.Conv2d(3, 4, 3, padding=1)
        self.c1 = nn.Conv1d(4 * 5, 6, 3, padding=1)
        self.fc = nn.Linear(6 * 7, 2)

    def forward(self, x):
        x = torch.relu(self.c2(x))          # (N, 4, 5, 7)
        x = torch.flatten(x, 1, 2)          # (N, 20, 7)
        x = torch.relu(self.c1(x))          # (N, 6, 7)
        return self.fc(torch.flatten(x, 1))


torch.manual_seed(0)
p = PIT(Net(), input_shape=(3, 5, 7))
s = p.summary()
ok = s['c1']['in_features'] == 20
try:
    y = p.export()(torch.randn(2, 3, 5, 7))
    ok = ok and tuple(y.shape) == (2, 2)
except Exception as ex:       # noqa: BLE001
    print('export failed:', type(ex).__name__, str(ex)[:120])
    ok = False
print('c1 reports in_features =', s['c1']['in_features'], '(the tensor feeding it has 20 channels)')
sys.exit(0 if ok else 1)
