"""C01 / C07 (fixed): export of a searchable layer + BatchNorm invoked at two call sites
(weight sharing, multi-input forward) with fold_bn=False.  export() re-created the BatchNorm only
after the node it was called for; the other call site lost its normalisation.
Run from /repo:  /venv/bin/python /verif/findings/demos/c01_export_bn_weight_sharing.py  (exit 1 = defect present)"""
import copy
import sys
import torch
import torch.nn as nn
from plinio.methods import PIT


class Net(nn.Module):
    def __init__(self):
        super().__init__()
        self.c = nn.Conv1d(3, 4, 3, padding=1)
        self.bn = nn.BatchNorm1d(4)
        self.fc = nn.Linear(4 * 8 * 2, 2)

    def forward(self, a, b):
        x = torch.relu(self.bn(self.c(a)))
        y = torch.relu(self.bn(self.c(b)))
        return self.fc(torch.cat((x.flatten(1), y.flatten(1)), dim=1))


torch.manual_seed(0)
m = Net()
with torch.no_grad():
    m.bn.running_mean.uniform_(-1, 1)
    m.bn.running_var.uniform_(0.5, 2)
    m.bn.weight.uniform_(0.5, 2)
    m.bn.bias.uniform_(-1, 1)
m.eval()
a, b = torch.randn(2, 3, 8), torch.randn(2, 3, 8)
ref = m(a, b)
p = PIT(copy.deepcopy(m), input_example=(a, b), fold_bn=False).eval()
e = p.export().eval()
for name, mod in e.named_modules():
    if isinstance(mod, nn.BatchNorm1d):       # statistics of the BatchNorm it replaces
        mod.load_state_dict(p.seed.get_submodule(name.replace('_exported_bn', '')).bn.state_dict())
n_bn = sum(1 for n in e.graph.nodes if n.op == 'call_module' and str(n.target).endswith('_exported_bn'))
d = float((e(a, b) - ref).detach().abs().max())
print('BatchNorm call sites in the exported graph:', n_bn, '(2 expected); max |exported - original| =', d)
sys.exit(0 if (n_bn == 2 and d < 1e-5) else 1)
