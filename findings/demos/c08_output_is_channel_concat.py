"""C08 / C01 / C11 (fixed): a network whose output is a channel concatenation.
build_shared_features_map cuts the edges into a concatenation over the features axis; only the
concatenation node was tied to the output, so the layers feeding it got trainable maskers: their
masks were NAS parameters and export() removed output channels.
Run from /repo:  /venv/bin/python /verif/findings/demos/c08_output_is_channel_concat.py  (exit 1 = defect present)"""
import sys
import torch
import torch.nn as nn
from plinio.methods import PIT


class Net(nn.Module):
    def __init__(self):
        super().__init__()
        self.s = nn.Conv2d(3, 4, 3, padding=1)
        self.a = nn.Conv2d(4, 5, 3, padding=1)
        self.b = nn.Conv2d(4, 6, 3, padding=1)

    def forward(self, x):
        x = torch.relu(self.s(x))
        return torch.cat((self.a(x), self.b(x)), dim=1)


torch.manual_seed(0)
x = torch.randn(2, 3, 8, 8)
p = PIT(Net(), input_shape=(3, 8, 8))
names = [n for n, _ in p.named_nas_parameters()]
print('NAS parameters:', names)
with torch.no_grad():
    for n, par in p.named_nas_parameters():
        if '.a.' in n:
            par[0] = 0.0
p.eval()
y, z = p(x), p.export().eval()(x)
print('PIT output', tuple(y.shape), 'exported output', tuple(z.shape))
ok = tuple(y.shape) == tuple(z.shape) and not any('.a.' in n or '.b.' in n for n in names)
sys.exit(0 if ok else 1)
