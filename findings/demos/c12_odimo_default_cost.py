"""C12 known findings: the default cost of ODiMO_MPS cannot be evaluated.
run: cd /repo && /venv/bin/python /verif/findings/demos/c12_odimo_default_cost.py"""
import torch
import torch.nn as nn
from plinio.methods import ODiMO_MPS, MPS
from plinio.methods.mps import get_default_qinfo, MPSType
from plinio.cost import diana_latency

torch.manual_seed(0)


class Net(nn.Module):
    def __init__(self):
        super().__init__()
        self.c1 = nn.Conv2d(3, 8, 3, padding=1)
        self.r = nn.ReLU()
        self.fc = nn.Linear(8 * 8 * 8, 4)

    def forward(self, x):
        return self.fc(self.r(self.c1(x)).flatten(1))


bad = 0
try:
    m = ODiMO_MPS(Net(), input_shape=(3, 8, 8))
    m(torch.randn(2, 3, 8, 8))
    print('ODiMO_MPS default cost =', float(m.cost))
except Exception as e:
    bad += 1
    print('ODiMO_MPS(model).cost raises', type(e).__name__, str(e)[:120])
try:
    m = MPS(Net(), input_shape=(3, 8, 8), cost=diana_latency, w_search_type=MPSType.PER_CHANNEL,
            qinfo=get_default_qinfo(w_precision=(2, 8), a_precision=(8,)))
    m(torch.randn(2, 3, 8, 8))
    print('MPS with diana_latency cost =', float(m.cost))
except Exception as e:
    bad += 1
    print('MPS(cost=diana_latency).cost raises', type(e).__name__, str(e)[:120])
raise SystemExit(1 if bad else 0)
