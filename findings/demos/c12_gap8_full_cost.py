"""C12 — with full_cost=True the GAP8 latency model could not be evaluated on a model with a layer
kept out of the search (TypeError in FloorSTE.forward).  Prints the three costs; a line with
TypeError shows the defect."""
import torch, torch.nn as nn
from plinio.methods import PIT
from plinio.cost import gap8_latency, diana_latency, ne16_latency, ops, params
class Net(nn.Module):
    def __init__(s):
        super().__init__()
        s.stem = nn.Conv2d(3, 8, 3, padding=1); s.c = nn.Conv2d(8, 8, 3, padding=1); s.fc = nn.Linear(8*16*16, 4)
    def forward(s, x):
        return s.fc(torch.flatten(torch.relu(s.c(torch.relu(s.stem(x)))), 1))
for name, spec in (('gap8', gap8_latency), ('ops', ops), ('params', params)):
    try:
        m = PIT(Net(), cost=spec, input_shape=(3,16,16), full_cost=True, exclude_names=['stem'])
        print(name, float(m.cost))
    except Exception as e:
        print(name, type(e).__name__, str(e)[:100])
