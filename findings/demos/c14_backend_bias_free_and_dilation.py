"""C14 known findings: integer back-end layers without bias / MATCH with dilation on the second axis.
run: cd /repo && /venv/bin/python /verif/findings/demos/c14_backend_bias_free_and_dilation.py"""
import torch
import torch.nn as nn
from plinio.methods import MPS
from plinio.methods.mps import get_default_qinfo, MPSType
from plinio.methods.mps.quant.backends import Backend, integerize_arch

torch.manual_seed(0)


def build(bias, ks, dilation):
    class Net(nn.Module):
        def __init__(self):
            super().__init__()
            self.c1 = nn.Conv2d(3, 8, ks, dilation=dilation, bias=bias)
            self.r = nn.ReLU()
            h = 8 - dilation[0] * (ks[0] - 1)
            w = 8 - dilation[1] * (ks[1] - 1)
            self.fc = nn.Linear(8 * h * w, 4, bias=bias)

        def forward(self, x):
            return self.fc(self.r(self.c1(x)).flatten(1))
    return Net()


bad = 0
for backend in (Backend.MATCH, Backend.MAUPITI):
    for bias, ks, dil in ((True, (3, 3), (1, 1)), (False, (3, 3), (1, 1)),
                          (True, (3, 1), (2, 1)), (True, (1, 3), (1, 2))):
        tag = f'{backend.name:8s} bias={bias!s:5s} kernel={ks} dilation={dil}'
        try:
            m = MPS(build(bias, ks, dil), input_shape=(3, 8, 8), w_search_type=MPSType.PER_LAYER,
                    qinfo=get_default_qinfo(w_precision=(8,), a_precision=(8,)))
            x = torch.rand(2, 3, 8, 8)
            m.train()
            m(x)
            q = m.export().eval()
            yq = q(x)
            inn = integerize_arch(q, backend).eval()
            yi = inn(x)
            c1 = inn.get_submodule('c1')
            print(tag, 'ok; integer conv weight', tuple(c1.weight.shape), 'kernel_size', c1.kernel_size,
                  'dilation', c1.dilation)
        except Exception as e:
            bad += 1
            print(tag, 'FAILS:', type(e).__name__, str(e)[:110].replace('\n', ' '))
raise SystemExit(1 if bad else 0)
