"""C19 — DUCCIO with strengths derived from task_loss: a cost that sits exactly at its target at
the first call gives the final strength task_loss / 0 = inf, and every later call returns
inf * max(0, 0) = nan (also after the cost moved).  Exits 1 when a non-finite value is seen."""
import sys
import torch
from plinio.regularizers import DUCCIO


class Stub:
    def __init__(self, **costs):
        self.costs = {k: torch.tensor(float(v), requires_grad=True) for k, v in costs.items()}

    def get_cost(self, name):
        return self.costs[name]


bad = []
for first, later in ((50., 50.), (50., 60.), (50., 40.), (70., 60.), (30., 60.)):
    reg = DUCCIO({'a': torch.tensor(50.)}, task_loss=torch.tensor(1.))
    v0 = reg(Stub(a=first), 3, 10)
    v1 = reg(Stub(a=later), 4, 10)
    ok = bool(torch.isfinite(v0)) and bool(torch.isfinite(v1)) and float(v0) >= 0 and float(v1) >= 0
    print(f'cost {first} then {later} (target 50): {float(v0):.4f}, {float(v1):.4f}, '
          f'strengths {tuple(float(s) for s in reg.final_strengths)}')
    if not ok:
        bad.append((first, later))
if bad:
    print('NON-FINITE / NEGATIVE:', bad)
    sys.exit(1)
print('ok')
