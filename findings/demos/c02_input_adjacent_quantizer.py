"""C02 — next to the network input a layer that only propagates the number of features (a depthwise
convolution, the quantizer of a residual sum) owns an output quantizer that is not shared with the
input quantizer; before fix 170f4f6 its consumer took the INPUT quantizer: summary() / export()
reported in_precision 2 for a tensor quantized at 8 bit.  Prints the precisions (pw.in must
equal dw.out, c2 in_precision must equal the add output precision)."""
import torch, torch.nn as nn
from plinio.methods.mps import MPS, get_default_qinfo

class DWFirst(nn.Module):
    def __init__(s):
        super().__init__()
        s.dw = nn.Conv2d(3, 3, 3, padding=1, groups=3); s.pw = nn.Conv2d(3, 8, 1); s.fc = nn.Linear(8*8*8, 4)
    def forward(s, x):
        return s.fc(torch.flatten(torch.relu(s.pw(torch.relu(s.dw(x)))), 1))

class SkipFromInput(nn.Module):
    def __init__(s):
        super().__init__()
        s.c1 = nn.Conv2d(3, 3, 3, padding=1); s.c2 = nn.Conv2d(3, 8, 1); s.fc = nn.Linear(8*8*8, 4)
    def forward(s, x):
        y = x + torch.relu(s.c1(x))
        return s.fc(torch.flatten(torch.relu(s.c2(y)), 1))

m = MPS(DWFirst(), input_shape=(3,8,8))
with torch.no_grad():
    m.seed.x_input_quantizer.out_mps_quantizer.alpha.copy_(torch.tensor([3., 0, 0]))   # input: 2 bit
    m.seed.dw.out_mps_quantizer.alpha.copy_(torch.tensor([0., 0, 3.]))                 # dw out: 8 bit
e = m.eval().export().eval()
print('DWFirst summary pw:', m.summary()['pw'], '| exported dw.out', e.dw.out_quantizer.precision, 'pw.in', e.pw.in_quantizer.precision)

m = MPS(SkipFromInput(), input_shape=(3,8,8))
print([n for n, _ in m.seed.named_children()])
addq = [mod for n, mod in m.seed.named_children() if n.startswith('add_')][0]
with torch.no_grad():
    m.seed.x_input_quantizer.out_mps_quantizer.alpha.copy_(torch.tensor([3., 0, 0]))
    addq.out_mps_quantizer.alpha.copy_(torch.tensor([0., 0, 3.]))
print('SkipFromInput summary c2:', m.summary()['c2'], 'add out:', addq.selected_out_precision)
