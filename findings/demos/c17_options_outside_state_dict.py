"""C17 known finding: option state lives outside the state_dict.
run: cd /repo && /venv/bin/python /verif/findings/demos/c17_options_outside_state_dict.py"""
import copy
import torch
import torch.nn as nn
from plinio.methods import PIT, MPS, SuperNet
from plinio.methods.supernet import SuperNetModule
from plinio.methods.mps import get_default_qinfo, MPSType

torch.manual_seed(0)


class Net(nn.Module):
    def __init__(self):
        super().__init__()
        self.c1 = nn.Conv2d(3, 8, 3, padding=1)
        self.r = nn.ReLU()
        self.c2 = nn.Conv2d(8, 8, 3, padding=1)
        self.fc = nn.Linear(8 * 8 * 8, 4)

    def forward(self, x):
        x = self.r(self.c1(x))
        x = self.r(self.c2(x))
        return self.fc(x.flatten(1))


x = torch.randn(2, 3, 8, 8)
seed_net = Net()

# --- MPS: hard_softmax changed at run time ------------------------------------------------
a = MPS(copy.deepcopy(seed_net), input_shape=(3, 8, 8), w_search_type=MPSType.PER_LAYER,
        qinfo=get_default_qinfo(w_precision=(2, 4, 8), a_precision=(8,)))
a.update_softmax_options(hard=True)
a.train()
a(x)
cost_a = float(a.cost)
sd = a.state_dict()
b = MPS(copy.deepcopy(seed_net), input_shape=(3, 8, 8), w_search_type=MPSType.PER_LAYER,
        qinfo=get_default_qinfo(w_precision=(2, 4, 8), a_precision=(8,)))
missing = b.load_state_dict(sd)
b.train()
b(x)
cost_b = float(b.cost)
print('MPS  hard_softmax=True  cost before save', cost_a, ' after load', cost_b, missing)

# --- PIT: discrete_cost changed at run time -------------------------------------------------
p = PIT(copy.deepcopy(seed_net), input_shape=(3, 8, 8))
with torch.no_grad():
    for n, t in p.named_nas_parameters():
        t.mul_(0.7)
p.discrete_cost = True
cost_p = float(p.cost)
q = PIT(copy.deepcopy(seed_net), input_shape=(3, 8, 8))
q.load_state_dict(p.state_dict())
cost_q = float(q.cost)
print('PIT  discrete_cost=True cost before save', cost_p, ' after load', cost_q)

# --- SuperNet: temperature changed at run time ----------------------------------------------
class SN(nn.Module):
    def __init__(self):
        super().__init__()
        self.b = SuperNetModule([nn.Conv2d(3, 4, 3, padding=1), nn.Conv2d(3, 4, 5, padding=2)])
        self.fc = nn.Linear(4 * 8 * 8, 4)

    def forward(self, x):
        return self.fc(self.b(x).flatten(1))


sn_seed = SN()
s1 = SuperNet(copy.deepcopy(sn_seed), input_shape=(3, 8, 8))
with torch.no_grad():
    for n, t in s1.named_nas_parameters():
        t.copy_(torch.tensor([0.2, 0.9]))
s1.update_softmax_options(temperature=0.1)
s1.train()
y1 = s1(x)
c1 = float(s1.cost)
s2 = SuperNet(copy.deepcopy(sn_seed), input_shape=(3, 8, 8))
s2.load_state_dict(s1.state_dict())
s2.train()
y2 = s2(x)
c2 = float(s2.cost)
print('SuperNet temperature=0.1 cost before save', c1, ' after load', c2,
      ' max |dy|', float((y1 - y2).abs().max()))

bad = abs(cost_a - cost_b) > 1e-6 or abs(cost_p - cost_q) > 1e-6 or abs(c1 - c2) > 1e-6
print('DIFFERS' if bad else 'same')
raise SystemExit(1 if bad else 0)
