"""C07 (fixed): fold_bn=True with a conv + BatchNorm pair invoked at two call sites (weight sharing,
multi-input forward).  fuse_consecutive_layers called the in-place fusion once per call site, so
the BatchNorm was folded into the weights twice and PIT(model) no longer computed model.
Run from /repo:  /venv/bin/python /verif/findings/demos/c07_fold_bn_weight_sharing.py  (exit 1 = defect present)"""
import copy
import sys
import torch
import torch.nn as nn
from plinio.methods import PIT


class Net(nn.Module):
    def __init__(self):
        super().__init__()
        self.c = nn.Conv1d(3, 4, 3, padding=1)
        self.bn = nn.BatchNorm1d(4)
        self.fc = nn.Linear(4 * 8 * 2, 2)

    def forward(self, a, b):
        x = torch.relu(self.bn(self.c(a)))
        y = torch.relu(self.bn(self.c(b)))
        return self.fc(torch.cat((x.flatten(1), y.flatten(1)), dim=1))


torch.manual_seed(0)
m = Net()
with torch.no_grad():
    m.bn.running_mean.uniform_(-1, 1)
    m.bn.running_var.uniform_(0.5, 2)
    m.bn.weight.uniform_(0.5, 2)
    m.bn.bias.uniform_(-1, 1)
m.eval()
a, b = torch.randn(2, 3, 8), torch.randn(2, 3, 8)
ref = m(a, b)
worst = 0.0
for fold in (False, True):
    p = PIT(copy.deepcopy(m), input_example=(a, b), fold_bn=fold).eval()
    d = float((p(a, b) - ref).detach().abs().max())
    print('fold_bn', fold, 'max |PIT(model)(x) - model(x)| =', d)
    worst = max(worst, d)
sys.exit(0 if worst < 1e-5 else 1)
