import torch, torch.nn as nn, copy
from plinio.methods import PIT
class Net(nn.Module):
    def __init__(self):
        super().__init__()
        self.c = nn.Conv1d(3, 4, 3, padding=1)
        self.bn = nn.BatchNorm1d(4)
        self.fc = nn.Linear(4*8*2, 2)
    def forward(self, a, b):
        x = torch.relu(self.bn(self.c(a)))
        y = torch.relu(self.bn(self.c(b)))
        return self.fc(torch.cat((x.flatten(1), y.flatten(1)), dim=1))
torch.manual_seed(0)
m = Net()
with torch.no_grad():
    m.bn.running_mean.uniform_(-1, 1); m.bn.running_var.uniform_(0.5, 2); m.bn.weight.uniform_(0.5, 2); m.bn.bias.uniform_(-1, 1)
m.eval()
a, b = torch.randn(2,3,8), torch.randn(2,3,8)
ref = m(a, b)
p = PIT(copy.deepcopy(m), input_example=(a, b), fold_bn=False).eval()
e = p.export().eval()
# transplant BN stats
sd_p = {k: v for k, v in p.seed.named_modules()}
for name, mod in e.named_modules():
    if isinstance(mod, nn.BatchNorm1d):
        src = p.seed.get_submodule(name.replace('_exported_bn','')).bn
        mod.load_state_dict(src.state_dict())
print(e.graph)
print('max diff', float((e(a,b)-ref).abs().max()))
