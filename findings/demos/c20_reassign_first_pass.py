"""C20 known finding (R20f): the first pass of _reassign_precisions gives label p to the top
target_count channels of score row p whatever earlier iterations decided, so a later precision
takes a channel an earlier one was counting on and that precision misses its target.
run: cd /repo && /venv/bin/python /verif/findings/demos/c20_reassign_first_pass.py"""
import torch
from plinio.methods.mps.utils import _reassign_precisions

scores = torch.tensor([[0.21, 0.90, 0.10],
                       [0.80, 0.81, 0.31]])
best = torch.tensor([1., 2.])          # targets sum to the number of channels
m = _reassign_precisions(best, scores)
print('targets', best.tolist(), ' counts met', m.sum(dim=1).tolist(),
      ' precisions per channel', m.sum(dim=0).tolist())
raise SystemExit(0 if m.sum(dim=1).tolist() == best.tolist() else 1)
