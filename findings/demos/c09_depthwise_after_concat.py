"""C09 / C07 demo: a depthwise convolution fed by a channel concatenation.

The depthwise layer takes its features masker from its input, and the width group of a
concatenation contains no node that defines a width, so build_shared_features_map handed it
None: PIT(model) converted without complaint and the first forward raised AttributeError
('NoneType' object has no attribute 'theta').  Repaired: the width of such a group is kept
(frozen masker for the depthwise layer and for the concatenated layers).

Run:  PYTHONPATH=/repo /venv/bin/python findings/demos/c09_depthwise_after_concat.py
exit 0 = wrapped model equals the original, export is shape-consistent and equal for random
masks of the other layers; exit 1 otherwise.
"""
import sys
import warnings
import torch
import torch.nn as nn
from plinio.methods import PIT
from plinio.methods.pit.nn.features_masker import PITFrozenFeaturesMasker

warnings.filterwarnings('ignore')


class Net2d(nn.Module):
    def __init__(self, bn: bool, dw: bool):
        super().__init__()
        self.pre = nn.Conv2d(3, 5, 3, padding=1)
        self.a = nn.Conv2d(5, 4, 3, padding=1)
        self.b = nn.Conv2d(5, 4, 3, padding=1)
        self.bn = nn.BatchNorm2d(8) if bn else nn.Identity()
        self.mid = nn.Conv2d(8, 8, 3, padding=1, groups=8 if dw else 1)
        self.pw = nn.Conv2d(8, 6, 1)
        self.fc = nn.Linear(6 * 8 * 8, 2)

    def forward(self, x):
        x = torch.relu(self.pre(x))
        y = torch.cat([torch.relu(self.a(x)), torch.relu(self.b(x))], dim=1)
        y = torch.relu(self.mid(self.bn(y)))
        y = torch.relu(self.pw(y))
        return self.fc(y.flatten(1))


class Net1d(nn.Module):
    def __init__(self):
        super().__init__()
        self.a = nn.Conv1d(3, 4, 3, padding=1)
        self.b = nn.Conv1d(3, 2, 3, padding=1)
        self.dw = nn.Conv1d(6, 6, 3, padding=1, groups=6)
        self.pw = nn.Conv1d(6, 5, 1)
        self.fc = nn.Linear(5 * 16, 2)

    def forward(self, x):
        y = torch.cat([self.a(x), self.b(x)], dim=1)
        y = torch.relu(self.pw(torch.relu(self.dw(y))))
        return self.fc(y.flatten(1))


def check(name, model, shape, frozen_expected):
    torch.manual_seed(0)
    model.eval()
    x = torch.randn(3, *shape)
    ref = model(x)
    try:
        p = PIT(model, input_shape=shape)
        p.eval()
        d0 = float((p(x) - ref).abs().max())
        assert d0 < 1e-5, f'wrapped model differs from the original by {d0}'
        for lname in ('a', 'b'):
            fr = isinstance(getattr(p.seed, lname).out_features_masker, PITFrozenFeaturesMasker)
            assert fr == frozen_expected, \
                f'layer {lname}: frozen masker = {fr}, expected {frozen_expected}'
        # prune whatever is searchable, at random
        g = torch.Generator().manual_seed(1)
        with torch.no_grad():
            for prm in p.nas_parameters():
                prm.copy_((torch.rand(prm.shape, generator=g) > 0.4).float())
        out = p(x)
        ex = p.export().eval()
        d1 = float((ex(x) - out).abs().max())
        assert d1 < 1e-4, f'exported model differs from the masked one by {d1}'
        print(f'{name}: ok (wrapped == original, exported == masked, max diff {d1:.1e})')
        return True
    except Exception as e:  # noqa
        print(f'{name}: FAILS: {type(e).__name__}: {str(e)[:160]}')
        return False


ok = True
ok &= check('concat -> depthwise Conv2d', Net2d(bn=False, dw=True), (3, 8, 8), True)
ok &= check('concat -> BatchNorm -> depthwise Conv2d', Net2d(bn=True, dw=True), (3, 8, 8), True)
ok &= check('concat -> depthwise Conv1d', Net1d(), (3, 16), True)
ok &= check('concat -> ordinary Conv2d (inputs stay searchable)', Net2d(bn=False, dw=False),
            (3, 8, 8), False)
sys.exit(0 if ok else 1)
