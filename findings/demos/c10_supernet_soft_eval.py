"""C10 known finding: a SuperNet in eval mode (default soft selection) evaluates a blend of the
branches while summary()/export() report the arg-max branch.
run: cd /repo && /venv/bin/python /verif/findings/demos/c10_supernet_soft_eval.py"""
import copy
import torch
import torch.nn as nn
from plinio.methods import SuperNet
from plinio.methods.supernet import SuperNetModule

torch.manual_seed(0)


class SN(nn.Module):
    def __init__(self):
        super().__init__()
        self.b = SuperNetModule([nn.Conv2d(3, 4, 3, padding=1), nn.Conv2d(3, 4, 5, padding=2)])
        self.fc = nn.Linear(4 * 8 * 8, 4)

    def forward(self, x):
        return self.fc(self.b(x).flatten(1))


x = torch.randn(2, 3, 8, 8)
s = SuperNet(SN(), input_shape=(3, 8, 8))
with torch.no_grad():
    for n, t in s.named_nas_parameters():
        t.copy_(torch.tensor([0.2, 0.9]))
s.eval()
y_eval = s(x)
exp = s.export().eval()
y_exp = exp(x)
d = float((y_eval - y_exp).abs().max())
print('theta_alpha in eval mode:', [m.theta_alpha.tolist() for m in s.modules()
                                    if hasattr(m, 'theta_alpha')])
print('max |eval-mode output - exported output| =', d)
raise SystemExit(1 if d > 1e-5 else 0)
