"""C14 — MAUPITIConv2d builds its explicit pad with nn.ConstantPad2d(self.padding[0], ..): all four
sides are padded with the padding of the first spatial axis.  For Conv2d(.., padding=(1, 0)) the
integer layer returns another output size than its fake-quantised counterpart.  Exits 1 when the
shapes differ."""
import copy
import sys
import torch
import torch.nn as nn
from plinio.methods.mps import MPS, get_default_qinfo, MPSType
from plinio.methods.mps.quant.backends import Backend, integerize_arch
import plinio.methods.mps.quant.nn as qnn


class Net(nn.Module):
    def __init__(self):
        super().__init__()
        self.c0 = nn.Conv2d(3, 6, 3, padding=(1, 0))
        self.r0 = nn.ReLU()
        self.pool = nn.AdaptiveAvgPool2d(1)
        self.fc = nn.Linear(6, 4)

    def forward(self, x):
        return self.fc(self.pool(self.r0(self.c0(x))).flatten(1))


torch.manual_seed(0)
net = Net().eval()
mps = MPS(net, input_shape=(3, 10, 10),
          qinfo=get_default_qinfo(w_precision=(8,), a_precision=(8,)),
          w_search_type=MPSType.PER_LAYER).eval()
fq = mps.export().eval()
x = torch.rand(2, 3, 10, 10)
with torch.no_grad():
    fq(x)
shapes = {}
for tag, m in (('fake-quantised', fq),
               ('integer', integerize_arch(copy.deepcopy(fq), Backend.MAUPITI, {}).eval())):
    m.get_submodule('c0').register_forward_hook(
        lambda mod, i, o, tag=tag: shapes.__setitem__(tag, tuple(o.shape)))
    with torch.no_grad():
        m(x)
print(shapes)
if shapes['fake-quantised'] != shapes['integer']:
    print('MISMATCH: the integer layer pads both axes with padding[0]')
    sys.exit(1)
print('ok')
