"""Positive control for R17b: a module that registers a buffer from its forward."""
import torch
import torch.nn as nn


class LazyStats(nn.Module):
    def __init__(self):
        super().__init__()
        self.scale = nn.Parameter(torch.ones(1))

    def forward(self, x):
        if not hasattr(self, 'seen_max'):
            self.register_buffer('seen_max', x.abs().max())
        return x * self.scale
