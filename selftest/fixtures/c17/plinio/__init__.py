"""Positive control for R17b: a module that registers a buffer from its forward."""
import torch
import torch.nn as nn


class LazyStats(nn.Module):
    def __init__(self):
        super().__init__()
        self.scale = nn.Parameter(torch.ones(1))

    def forward(self, x):
        if not hasattr(self, 'seen_max'):
            self.register_buffer('seen_max', x.abs().max())
        return x * self.scale


class RefreshOnLoad(nn.Module):
    """Positive control for R17e: a checkpoint-protocol override that runs a forward pass."""
    def __init__(self):
        super().__init__()
        self.bn = nn.BatchNorm1d(4)
        self._example = torch.zeros(2, 4, 8)

    def forward(self, x):
        return self.bn(x)

    def load_state_dict(self, state_dict, *args, **kwargs):
        res = super().load_state_dict(state_dict, *args, **kwargs)
        with torch.no_grad():
            self(self._example)
        return res
