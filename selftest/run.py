#!/venv/bin/python
"""Self-test of the checkers, both ways.

* must-fire: each entry of mutants.json is a small textual edit of the library (applied to a
  scratch copy of /repo/plinio under a temporary directory, deleted afterwards) that breaks a
  property; the named check must exit 1 with a VIOLATION whose report mentions ``expect``.
* must-stay-silent: entries with ``"benign": true`` are behaviour-preserving edits; the check
  must give the same verdict as on the unchanged tree (exit 0).

usage: selftest/run.py [--only C01,C08] [--jobs 16] [--id <mutant id>] [-v]
"""
import argparse
import json
import os
import shutil
import subprocess
import sys
import tempfile
from concurrent.futures import ThreadPoolExecutor
from pathlib import Path

VERIF = Path(__file__).resolve().parent.parent
REPO = Path(os.environ.get('VERIF_REPO', '/repo'))
PY = '/venv/bin/python'


def run_one(m, verbose=False):
    tmp = Path(tempfile.mkdtemp(prefix='plinio-mut-'))
    try:
        shutil.copytree(REPO / 'plinio', tmp / 'plinio',
                        ignore=shutil.ignore_patterns('__pycache__'))
        if m.get('patch'):
            r = subprocess.run(['patch', '-p1', '-s', '-i', str(VERIF / m['patch'])], cwd=tmp,
                               capture_output=True, text=True)
            if r.returncode != 0:
                return m, 'STALE', 'patch does not apply: ' + (r.stdout + r.stderr)[-300:]
        for ed in m.get('edits', []):
            f = tmp / ed['file']
            s = f.read_text()
            if s.count(ed['old']) != ed.get('count', 1):
                return m, 'STALE', f"pattern occurs {s.count(ed['old'])}x in {ed['file']}"
            s = s.replace(ed['old'], ed['new'])
            try:
                compile(s, str(f), 'exec')
            except SyntaxError as e:
                return m, 'STALE', f'mutant does not compile: {e}'
            f.write_text(s)
        env = dict(os.environ, VERIF_REPO=str(tmp), VERIF_EVIDENCE_DIR=str(tmp / 'ev'))
        out = []
        status = 'OK'
        for prop in m['props']:
            r = subprocess.run([PY, str(VERIF / 'sa' / 'check.py'), prop], env=env,
                               capture_output=True, text=True, cwd=str(VERIF))
            txt = r.stdout + r.stderr
            if m.get('benign'):
                if r.returncode != 0:
                    status = 'FALSE-ALARM' if r.returncode == 1 else 'ANALYSIS-ERROR'
                    out.append(txt[-1500:])
            else:
                if r.returncode == 2:
                    status = 'ANALYSIS-ERROR'
                    out.append(txt[-800:])
                elif r.returncode != 1:
                    status = 'MISSED'
                elif m.get('expect') and m['expect'] not in txt:
                    status = 'WRONG-REPORT'
                    out.append(txt[-1500:])
        return m, status, '\n'.join(out)
    finally:
        shutil.rmtree(tmp, ignore_errors=True)


def main():
    ap = argparse.ArgumentParser()
    ap.add_argument('--only', default='')
    ap.add_argument('--id', default='')
    ap.add_argument('--jobs', type=int, default=16)
    ap.add_argument('-v', action='store_true')
    ap.add_argument('--json', action='store_true')
    a = ap.parse_args()
    muts = json.loads((VERIF / 'selftest' / 'mutants.json').read_text())
    # seeded changes written by independent sub-agents (see seeded/*/meta.json)
    for d in sorted((VERIF / 'seeded').glob('*/meta.json')):
        meta = json.loads(d.read_text())
        muts.append({'id': 'seed-' + d.parent.name, 'props': [meta['breaks_property']],
                     'why': 'seeded change, see ' + str(d.parent.relative_to(VERIF)),
                     'patch': str((d.parent / 'patch.diff').relative_to(VERIF)), 'expect': 'refuted'})
    if a.only:
        only = set(a.only.split(','))
        muts = [m for m in muts if only & set(m['props'])]
    if a.id:
        muts = [m for m in muts if m['id'] == a.id]
    bad = 0
    with ThreadPoolExecutor(a.jobs) as ex:
        if a.json and a.only:
            muts = [dict(m, props=[p for p in m['props'] if p in set(a.only.split(','))])
                    for m in muts]
        results = []
        for m, status, txt in ex.map(lambda m: run_one(m, a.v), muts):
            good = status == 'OK'
            bad += not good
            results.append({'id': m['id'], 'kind': 'benign' if m.get('benign') else 'must-fire',
                            'status': status})
            if a.json:
                continue
            if not good or a.v:
                print(f"{status:15s} {m['id']:40s} {','.join(m['props'])} {m.get('why', '')[:70]}")
                if txt and (a.v or not good):
                    print('    ' + txt.replace('\n', '\n    ')[-1500:])
    if a.json:
        print(json.dumps({
            'variants': len(muts), 'as_expected': len(muts) - bad,
            'must_fire': sum(1 for m in muts if not m.get('benign')),
            'benign': sum(1 for m in muts if m.get('benign')),
            'seeded': sum(1 for m in muts if m.get('patch')),
            'stale': sum(1 for r in results if r['status'] == 'STALE'),
            'results': results}))
        return 0
    print(f'{len(muts)} variants, {len(muts) - bad} as expected, {bad} not')
    return 1 if bad else 0


if __name__ == '__main__':
    sys.exit(main())
